"""Finite-sum algebra for the Krylov orthogonality obligations: z3 entry terms of the index domain (vcgen/idx.py, vcgen/kidx.py) are translated to
sympy, where `expand` + `factor_terms` give linearity of sums (sum of a sum, constants out of a sum) and the field/conjugation identities
(x/x = 1, sqrt(x)^2 = x, conj(conj x) = x, conj distributes).  Hypotheses about inner products (orthonormality of earlier basis vectors, loop
invariants) are applied as rewrites of the corresponding Sum atoms.  The back end of these obligations is sympy's normaliser, not an SMT solver; a goal
is discharged when the normal form of (lhs - rhs) is 0."""
import sympy as sp
import z3

from vcgen.proxy import Unsupported


def simp_under(body, var, lo, hi, facts):
    """rewrite the if-then-else nodes of a summand whose condition is decided for every lo <= var < hi (under the path facts): the two summands agree on the range"""
    sol = z3.Solver()
    sol.set("rlimit", 2000000)
    sol.add(*[f for f in facts if not z3.is_quantifier(f)])
    sol.add(var >= lo, var < hi)
    cache, memo = {}, {}

    def occurs(t):
        st, seen = [t], set()
        while st:
            u = st.pop()
            if u.get_id() in seen:
                continue
            seen.add(u.get_id())
            if z3.eq(u, var):
                return True
            st.extend(u.children())
        return False

    def decided(c):
        k = c.get_id()
        if k not in cache:
            r = None
            sol.push()
            sol.add(z3.Not(c))
            if sol.check() == z3.unsat:
                r = True
            sol.pop()
            if r is None:
                sol.push()
                sol.add(c)
                if sol.check() == z3.unsat:
                    r = False
                sol.pop()
            cache[k] = (c, r)
        return cache[k][1]

    def walk(t):
        k = t.get_id()
        if k in memo:
            return memo[k][1]
        out = t
        if z3.is_app(t) and not z3.is_quantifier(t) and t.num_args() > 0:
            if t.decl().kind() == z3.Z3_OP_ITE:
                c, a, b = t.children()
                d = decided(c) if not any(z3.is_quantifier(x) for x in [c]) else None
                out = walk(a) if d is True else (walk(b) if d is False else z3.If(c, walk(a), walk(b)))
            else:
                out = t.decl()(*[walk(x) for x in t.children()])
        memo[k] = (t, out)
        return out
    return z3.simplify(walk(body))


class Translator:
    def __init__(self, complex_entries, decide=None, facts=None):
        self.cplx = complex_entries
        self.decide = decide          # callback: z3 Bool -> True / False / None (decided under the path facts)
        self.facts = facts            # path facts (z3): lets the summand of an outermost sum be simplified on its range
        self._zc = 0
        self._ranges = []
        self.syms = {}
        self.funcs = {}
        self.cache = {}

    def sym(self, name, integer):
        k = (name, integer)
        if k not in self.syms:
            self.syms[k] = sp.Symbol(name.replace("!", "_").replace("?", "_"), integer=True) if integer else sp.Symbol(name.replace("!", "_").replace("?", "_"))
        return self.syms[k]

    def fn(self, name):
        if name not in self.funcs:
            self.funcs[name] = sp.Function(name.replace("!", "_").replace("?", "_"))
        return self.funcs[name]

    def conj(self, x):
        return sp.conjugate(x) if self.cplx else x

    def tr(self, t, bound=()):
        key = (t.get_id(), tuple((b.name, getattr(b, "dummy_index", 0)) for b in bound), tuple(sorted((k_[0], getattr(v_, "dummy_index", 0)) for k_, v_ in self.syms.items() if k_[0].startswith("sumvar"))))
        hit = self.cache.get(key)
        if hit is not None:
            return hit[1]
        out = self._tr(t, bound)
        self.cache[key] = (t, out)
        return out

    def cond(self, c, bound):
        k = c.decl().kind()
        ch = c.children()
        if k == z3.Z3_OP_AND:
            return sp.And(*[self.cond(x, bound) for x in ch])
        if k == z3.Z3_OP_OR:
            return sp.Or(*[self.cond(x, bound) for x in ch])
        if k == z3.Z3_OP_NOT:
            return sp.Not(self.cond(ch[0], bound))
        if k == z3.Z3_OP_EQ:
            return sp.Eq(self.tr(ch[0], bound), self.tr(ch[1], bound))
        if k == z3.Z3_OP_LE:
            return sp.Le(self.tr(ch[0], bound), self.tr(ch[1], bound))
        if k == z3.Z3_OP_LT:
            return sp.Lt(self.tr(ch[0], bound), self.tr(ch[1], bound))
        if k == z3.Z3_OP_GE:
            return sp.Ge(self.tr(ch[0], bound), self.tr(ch[1], bound))
        if k == z3.Z3_OP_GT:
            return sp.Gt(self.tr(ch[0], bound), self.tr(ch[1], bound))
        if z3.is_true(c):
            return sp.true
        if z3.is_false(c):
            return sp.false
        raise Unsupported(f"condition {c}")

    def _tr(self, t, bound):
        if z3.is_var(t):
            return bound[len(bound) - 1 - z3.get_var_index(t)]
        if z3.is_int_value(t):
            return sp.Integer(t.as_long())
        if z3.is_rational_value(t):
            return sp.Rational(t.numerator_as_long(), t.denominator_as_long())
        if z3.is_quantifier(t):
            raise Unsupported("a lambda outside a sum atom")
        if not z3.is_app(t):
            raise Unsupported(f"term {t}")
        k = t.decl().kind()
        ch = t.children()
        nm = t.decl().name()
        if k == z3.Z3_OP_ADD:
            return sp.Add(*[self.tr(c, bound) for c in ch])
        if k == z3.Z3_OP_SUB:
            a = self.tr(ch[0], bound)
            for c in ch[1:]:
                a = a - self.tr(c, bound)
            return a
        if k == z3.Z3_OP_UMINUS:
            return -self.tr(ch[0], bound)
        if k == z3.Z3_OP_MUL:
            return sp.Mul(*[self.tr(c, bound) for c in ch])
        if k == z3.Z3_OP_DIV:
            return self.tr(ch[0], bound) / self.tr(ch[1], bound)
        if k == z3.Z3_OP_TO_REAL:
            return self.tr(ch[0], bound)
        if k == z3.Z3_OP_ITE:
            d = self.decide(ch[0]) if self.decide is not None else None
            if d is True:
                return self.tr(ch[1], bound)
            if d is False:
                return self.tr(ch[2], bound)
            c0 = ch[0]
            if c0.decl().kind() == z3.Z3_OP_EQ and c0.arg(0).sort() == z3.IntSort():
                # [a == b] ? T : E   =   E + delta(a, b) (T - E)        (keeps everything polynomial; deltas collapse sums later)
                a_, b_ = self.tr(c0.arg(0), bound), self.tr(c0.arg(1), bound)
                tt, ee = self.tr(ch[1], bound), self.tr(ch[2], bound)
                return ee + sp.KroneckerDelta(a_, b_) * (tt - ee)
            return sp.Piecewise((self.tr(ch[1], bound), self.cond(ch[0], bound)), (self.tr(ch[2], bound), True))
        if k == z3.Z3_OP_UNINTERPRETED:
            if t.num_args() == 0:
                return self.sym(nm, t.sort() == z3.IntSort())
            if nm == "rm":
                return self.tr(ch[0], bound) * self.tr(ch[1], bound)
            if nm == "rinv":
                return 1 / self.tr(ch[0], bound)
            if nm == "rsqrt":
                return RS(self.tr(ch[0], bound))
            if nm == "cj_entry":
                return sp.conjugate(self.tr(ch[0], bound))
            if nm == "abs2_entry":
                x = self.tr(ch[0], bound)
                return x * sp.conjugate(x)
            if nm == "sumf":
                lam = ch[2]
                if not z3.is_quantifier(lam):
                    raise Unsupported("sumf over a non-lambda")
                v = sp.Dummy("s", integer=True)      # a fresh bound variable per sum (the contraction engine renames apart and canonicalises at the end)
                if bound or self.facts is None:
                    body = self.tr(lam.body(), bound + (v,))
                else:
                    # outermost sum: conditions of the summand that hold throughout the range are decided first (sum congruence on the range)
                    self._zc += 1
                    zc = z3.Int(f"sumvar{self._zc}")
                    zb = z3.substitute_vars(lam.body(), zc)
                    zb = simp_under(zb, zc, ch[0], ch[1], list(self.facts) + self._ranges)
                    self.syms[(zc.decl().name(), True)] = v
                    self._ranges += [zc >= ch[0], zc < ch[1]]         # the summand of a nested sum may be simplified on the enclosing ranges as well
                    try:
                        body = self.tr(zb, bound)
                    finally:
                        del self._ranges[-2:]
                return sp.Sum(body, (v, self.tr(ch[0], bound), self.tr(ch[1], bound) - 1))
            return self.fn(nm)(*[self.tr(c, bound) for c in ch])
        raise Unsupported(f"operator {t.decl()} in a sum-algebra obligation")


RS = sp.Function("rsqrt", real=True, positive=True)      # the non-negative square root of a non-negative real (norms): real, so conj(rsqrt x) = rsqrt x


def _squares(e):
    """rsqrt(x)^(2k) = x^k"""
    return e.replace(lambda x: isinstance(x, sp.Pow) and getattr(x.base, "func", None) == RS and x.exp.is_integer and x.exp % 2 == 0,
                     lambda x: x.base.args[0] ** (x.exp / 2))


def _height(e):
    hs = [1 + _height(s_.function) for s_ in e.atoms(sp.Sum)]
    return max(hs) if hs else 0


def canon_sums(e):
    """rename the bound variable of every Sum by its nesting height, so that alpha-equivalent sums are structurally equal"""
    if not e.has(sp.Sum):
        return e
    if isinstance(e, sp.Sum) and len(e.limits) == 1:
        f = canon_sums(e.function)
        v, lo, hi = e.limits[0]
        nv = sp.Symbol(f"s{_height(f)}", integer=True)
        return sp.Sum(f.xreplace({v: nv}), (nv, canon_sums(lo), canon_sums(hi)))
    if e.args:
        return e.func(*[canon_sums(a) for a in e.args])
    return e


def split_multi(e):
    """Sum(f, (x, ..), (y, ..))  ->  Sum( indep_x(f) * Sum(dep_x(f), (x, ..)), (y, ..) ): multi-limit sums as nested single-limit sums with the factors that do
    not depend on the inner variable pulled out of the inner sum"""
    guard = 0
    while guard < 40:
        guard += 1
        multi = [s_ for s_ in e.atoms(sp.Sum) if len(s_.limits) > 1]
        if not multi:
            return e
        s_ = sorted(multi, key=lambda x: x.count_ops())[0]
        x_lim = s_.limits[0]
        total = sp.Integer(0)
        for term in sp.Add.make_args(sp.expand(s_.function)):
            facs = list(sp.Mul.make_args(term))
            dep = sp.Mul(*[f_ for f_ in facs if f_.has(x_lim[0])])
            ind = sp.Mul(*[f_ for f_ in facs if not f_.has(x_lim[0])])
            inner = sp.Sum(dep, x_lim) if dep != 1 else (x_lim[2] - x_lim[1] + 1)
            total += sp.Sum(ind * inner, *s_.limits[1:])
        e = e.xreplace({s_: total})
    return e


def normal(e):
    """expand products over sums, split sums, pull constants out, canonical bound names"""
    e = _squares(sp.expand(e))
    e = sp.factor_terms(e)
    e = _squares(sp.expand(e))
    e = split_multi(e)
    return canon_sums(e)


def rewrite_sums(e, rule):
    """apply `rule(summand, var, lo, hi)` -> replacement or None to every Sum atom (innermost first), after normalisation"""
    e = normal(e)
    changed = True
    guard = 0
    while changed and guard < 20:
        changed = False
        guard += 1
        for s in sorted(e.atoms(sp.Sum), key=lambda x: x.count_ops()):
            if len(s.limits) != 1:
                continue
            v, lo, hi = s.limits[0]
            rep = rule(s.function, v, lo, hi)
            if rep is not None:
                e = normal(e.xreplace({s: rep}))
                changed = True
                break
    return e


def delta_subst(e):
    """delta(x, y) f(y) = delta(x, y) f(x): inside a term that carries a delta on a symbol, that symbol is replaced by the other argument"""
    out = sp.Integer(0)
    for term in sp.Add.make_args(sp.expand(e)):
        facs = list(sp.Mul.make_args(term))
        for d in [f_ for f_ in facs if isinstance(f_, sp.KroneckerDelta)]:
            x_, y_ = d.args
            if y_.is_Symbol:
                rest = sp.Mul(*[f_ for f_ in facs if f_ is not d]).xreplace({y_: x_})
                facs = [d] + list(sp.Mul.make_args(rest))
            elif x_.is_Symbol:
                rest = sp.Mul(*[f_ for f_ in facs if f_ is not d]).xreplace({x_: y_})
                facs = [d] + list(sp.Mul.make_args(rest))
        out += sp.Mul(*facs)
    return out


def is_zero(e):
    e = normal(e)
    if e == 0:
        return True
    if e.has(sp.KroneckerDelta):
        e = normal(delta_subst(e))
        if e == 0:
            return True
    try:
        return sp.simplify(e) == 0
    except Exception:
        return False


def split_piecewise_sums(e):
    """Sum_j P(j) with P = [j == c] ? A(j) : B(j)   =   Sum_j B(j) + (A(c) - B(c))     (c inside the range: a side condition the caller discharges).
    Applied to every Sum whose summand folds to such a two-branch Piecewise on an equality with the summation variable."""
    changed = True
    guard = 0
    while changed and guard < 30:
        changed = False
        guard += 1
        for s_ in sorted(e.atoms(sp.Sum), key=lambda x: x.count_ops()):
            if len(s_.limits) != 1 or not s_.function.has(sp.Piecewise):
                continue
            v, lo, hi = s_.limits[0]
            f = sp.piecewise_fold(s_.function)
            if isinstance(f, sp.Piecewise) and len(f.args) == 2 and f.args[1][1] == sp.true and isinstance(f.args[0][1], sp.Equality):
                a, c = f.args[0]
                b = f.args[1][0]
                if c.lhs == v and not c.rhs.has(v):
                    pt = c.rhs
                elif c.rhs == v and not c.lhs.has(v):
                    pt = c.lhs
                else:
                    continue
                rep = sp.Sum(b, (v, lo, hi)) + a.xreplace({v: pt}) - b.xreplace({v: pt})
                e = e.xreplace({s_: rep})
                changed = True
                break
    return e


def interchange(e):
    """Sum_r( A(r) * Sum_j( B(r, j) ) )  =  Sum_j( Sum_r( A(r) B(r, j) ) ): applied wherever an outer summand contains an inner Sum that depends on the
    outer variable (finite sums commute)"""
    changed = True
    guard = 0
    while changed and guard < 50:
        changed = False
        guard += 1
        e = normal(e)
        for s_ in sorted(e.atoms(sp.Sum), key=lambda x: -x.count_ops()):
            if len(s_.limits) != 1:
                continue
            v, lo, hi = s_.limits[0]
            facs = list(sp.Mul.make_args(s_.function))
            inner = [x for x in facs if isinstance(x, sp.Sum) and x.has(v) and len(x.limits) == 1]
            if not inner:
                continue
            t_ = inner[0]
            others = sp.Mul(*[x for x in facs if x is not t_])
            u, lo2, hi2 = t_.limits[0]
            if lo2.has(v) or hi2.has(v):
                continue
            uu = sp.Dummy("u", integer=True)          # fresh name while the two sums are exchanged (canonical names are restored by normal())
            rep = sp.Sum(sp.Sum(others * t_.function.xreplace({u: uu}), (v, lo, hi)), (uu, lo2, hi2))
            e = e.xreplace({s_: rep})
            changed = True
            break
    return normal(e)


def collapse_deltas(e, known_zero=(), in_range=None):
    """delta(a, a) = 1; delta(a, b) = 0 for a - b a non-zero number or (a, b) listed as distinct; Sum_j delta(j, c) f(j) = f(c) for c inside the range
    (in_range(c, lo, hi) must confirm)"""
    def fix(d):
        a_, b_ = d.args
        df = sp.simplify(a_ - b_)
        if df == 0:
            return sp.Integer(1)
        if df.is_number:
            return sp.Integer(0)
        for x, y in known_zero:
            if {a_, b_} == {x, y}:
                return sp.Integer(0)
        return d
    changed = True
    guard = 0
    while changed and guard < 60:
        changed = False
        guard += 1
        e = normal(e.replace(lambda x: isinstance(x, sp.KroneckerDelta), fix))
        for s_ in sorted(e.atoms(sp.Sum), key=lambda x: x.count_ops()):
            if len(s_.limits) != 1:
                continue
            v, lo, hi = s_.limits[0]
            facs = list(sp.Mul.make_args(s_.function))
            ds = [x for x in facs if isinstance(x, sp.KroneckerDelta) and x.has(v)]
            if not ds:
                continue
            d = ds[0]
            a_, b_ = d.args
            sol = None
            if a_ == v and not b_.has(v):
                sol = b_
            elif b_ == v and not a_.has(v):
                sol = a_
            else:
                try:
                    sols = sp.solve(sp.Eq(a_, b_), v)
                    if len(sols) == 1:
                        sol = sols[0]
                except Exception:
                    sol = None
            if sol is None or (in_range is not None and not in_range(sol, lo, hi)):
                continue
            rest = sp.Mul(*[x for x in facs if x is not d])
            e = e.xreplace({s_: rest.xreplace({v: sol})})
            changed = True
            break
    return normal(e)


# ------------------------------------------------------------------------------------------------ prenex form and contraction
def _pull(term):
    """one product -> list of (limits, factors) with every top-level Sum factor opened (bound variables renamed apart)"""
    out = [([], [])]
    facs = []
    for fac in sp.Mul.make_args(term):
        if isinstance(fac, sp.Pow) and isinstance(fac.base, sp.Sum) and fac.exp.is_Integer and fac.exp > 0:
            facs += [fac.base] * int(fac.exp)          # (sum f)^k: k independent copies (each gets its own bound variables below)
        else:
            facs.append(fac)
    for fac in facs:
        opened = None
        if isinstance(fac, sp.Sum):
            f = fac.function
            lims = []
            for (v, lo, hi) in fac.limits:
                nv = sp.Dummy("b", integer=True)
                f = f.xreplace({v: nv})
                lims.append((nv, lo, hi))
            opened = []
            for sub in sp.Add.make_args(sp.expand(f)):
                for (l2, f2) in _pull(sub):
                    opened.append((lims + l2, f2))
        if opened is None:
            out = [(l_, f_ + [fac]) for (l_, f_) in out]
        else:
            out = [(l_ + l2, f_ + f2) for (l_, f_) in out for (l2, f2) in opened]
    return out


def prenex(e):
    """e -> list of terms (limits, factors): sum over all bound variables of a product of factors none of which is a Sum"""
    terms = []
    for term in sp.Add.make_args(sp.expand(e)):
        terms += _pull(term)
    return terms


def _unsquare(factors):
    out = []
    for x in factors:
        if isinstance(x, sp.Pow) and x.exp.is_Integer and x.exp > 1 and not isinstance(x.base, (sp.Symbol, sp.Number)):
            out += [x.base] * int(x.exp)
        else:
            out.append(x)
    return out


def contract(e, rules, distinct=(), max_rounds=40):
    """Tensor-style contraction of finite sums.  Every term is brought to prenex form; then, repeatedly,
         * a bound variable that occurs in no factor contributes the number of its values,
         * delta(v, X) with v bound (X free of v): v := X everywhere, the sum over v disappears  (X inside the range: side condition of the caller),
         * delta(X, X) = 1, delta(X, Y) = 0 for X - Y a non-zero number or (X, Y) listed in `distinct`,
         * a rule rewrites the factors that contain a bound variable v (all of them, and only them) into factors free of v: rule(v, lo, hi, factors) -> list | None.
       Returns the resulting expression (residual sums rebuilt)."""
    def kill(d):
        a_, b_ = d.args
        df = sp.simplify(a_ - b_)
        if df == 0:
            return sp.Integer(1)
        if df.is_number:
            return sp.Integer(0)
        for x, y in distinct:
            dd = sp.simplify(x - y)
            if sp.simplify(df - dd) == 0 or sp.simplify(df + dd) == 0:
                return sp.Integer(0)
        return d
    total = sp.Integer(0)
    work = prenex(e)
    rounds = 0
    while work:
        limits, factors = work.pop()
        rounds += 1
        if rounds > 4000:
            raise Unsupported("contraction does not terminate")
        factors = [x.replace(lambda y: isinstance(y, sp.KroneckerDelta), kill) for x in _unsquare(factors)]
        prod = sp.expand(sp.Mul(*factors))
        if prod == 0:
            continue
        if isinstance(prod, sp.Add) or any(isinstance(f_, sp.Sum) for f_ in sp.Mul.make_args(prod)):
            for sub in sp.Add.make_args(prod):
                for (l2, f2) in _pull(sub):
                    work.append((limits + l2, f2))
            continue
        factors = _unsquare(list(sp.Mul.make_args(prod)))
        progressed = False
        for (v, lo, hi) in list(limits):
            fv = [x for x in factors if x.has(v)]
            if not fv:
                limits = [l_ for l_ in limits if l_[0] != v]
                factors.append(hi - lo + 1)
                progressed = True
                break
            dl = [x for x in fv if isinstance(x, sp.KroneckerDelta) and (x.args[0] == v or x.args[1] == v)]
            dl = [x for x in dl if not (x.args[1] if x.args[0] == v else x.args[0]).has(v)]
            if dl:
                d = dl[0]
                other = d.args[1] if d.args[0] == v else d.args[0]
                rest = list(factors)
                rest.remove(d)
                factors = [x.xreplace({v: other}) for x in rest]
                limits = [(x, l_.xreplace({v: other}), h_.xreplace({v: other})) for (x, l_, h_) in limits if x != v]
                progressed = True
                break
            for rule in rules:
                rep = rule(v, lo, hi, fv)
                if rep is not None:
                    rest = list(factors)
                    for x in fv:
                        rest.remove(x)
                    factors = rest + list(rep)
                    limits = [l_ for l_ in limits if l_[0] != v]
                    progressed = True
                    break
            if progressed:
                break
        if progressed:
            work.append((limits, factors))
            continue
        body = sp.Mul(*factors)
        total += sp.Sum(body, *[(v, lo, hi) for (v, lo, hi) in limits]) if limits else body
    return total


def canon_multi(e):
    """canonical names for the bound variables of residual (multi-limit) sums: by order of first occurrence in the printed summand"""
    def fix(s_):
        f = s_.function
        names = {}
        order = sorted(s_.limits, key=lambda l_: (str(l_[1]), str(l_[2]), str(f).find(str(l_[0]))))
        new_f, lims = f, []
        h_ = _height(f)
        for k_, (v, lo, hi) in enumerate(order):
            nv = sp.Symbol(f"t{k_}" if h_ == 0 else f"t{h_}_{k_}", integer=True)      # names depend on the nesting height: an enclosing sum cannot capture
            new_f = new_f.xreplace({v: nv})
            lims.append((nv, lo, hi))
        return sp.Sum(new_f, *lims)
    return e.replace(lambda x: isinstance(x, sp.Sum), fix)


def zero_after(e, rules, distinct=()):
    # sums closed inside a norm (rsqrt(sum ...)) are contracted first: the prenex form does not look inside function arguments
    e = e.replace(lambda x: getattr(x, "func", None) == RS and x.args[0].has(sp.Sum), lambda x: RS(contract(x.args[0], rules, distinct)))
    e = canon_multi(e)
    r = canon_multi(contract(e, rules, distinct))
    r = _squares(sp.expand(r))
    if r == 0:
        return True, r
    if r.has(sp.KroneckerDelta):
        r = sp.expand(delta_subst(r))
    r = canon_multi(_squares(sp.expand(sp.factor_terms(r))))
    try:
        if r == 0 or sp.simplify(r) == 0:
            return True, r
    except Exception:
        pass
    return False, r


def app_of(x, F_):
    """(args, conjugated) if x is F_(...) or conjugate(F_(...)), else None"""
    y = x.args[0] if isinstance(x, sp.conjugate) else x
    return (y.args, isinstance(x, sp.conjugate)) if getattr(y, "func", None) == F_ else None


def pair_rule(Fa, pos_a, Fb, pos_b, cplx, result):
    """rule: the factors containing the bound variable v are exactly  conj(Fa(.. v at pos_a ..))  and  Fb(.. v at pos_b ..)  (no conjugate in the real case; when
    Fa is Fb either one may carry the conjugate).  result(args_a, args_b) -> list of replacement factors, or None."""
    def rule(v, lo, hi, fv):
        if len(fv) != 2:
            return None
        for x, y in ((fv[0], fv[1]), (fv[1], fv[0])):
            pa, pb = app_of(x, Fa), app_of(y, Fb)
            if not (pa and pb):
                continue
            if cplx and not (pa[1] and not pb[1]):
                continue
            if not cplx and (pa[1] or pb[1]):
                continue
            if pa[0][pos_a] != v or pb[0][pos_b] != v:
                continue
            if any(a_.has(v) for k_, a_ in enumerate(pa[0]) if k_ != pos_a) or any(a_.has(v) for k_, a_ in enumerate(pb[0]) if k_ != pos_b):
                continue
            rep = result(pa[0], pb[0])
            if rep is not None:
                return rep
        return None
    return rule
