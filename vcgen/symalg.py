"""Finite-sum algebra for the Krylov orthogonality obligations: z3 entry terms of the index domain (vcgen/idx.py, vcgen/kidx.py) are translated to
sympy, where `expand` + `factor_terms` give linearity of sums (sum of a sum, constants out of a sum) and the field/conjugation identities
(x/x = 1, sqrt(x)^2 = x, conj(conj x) = x, conj distributes).  Hypotheses about inner products (orthonormality of earlier basis vectors, loop
invariants) are applied as rewrites of the corresponding Sum atoms.  The back end of these obligations is sympy's normaliser, not an SMT solver; a goal
is discharged when the normal form of (lhs - rhs) is 0."""
import sympy as sp
import z3

from vcgen.proxy import Unsupported


class Translator:
    def __init__(self, complex_entries, decide=None):
        self.cplx = complex_entries
        self.decide = decide          # callback: z3 Bool -> True / False / None (decided under the path facts)
        self.syms = {}
        self.funcs = {}
        self.cache = {}

    def sym(self, name, integer):
        k = (name, integer)
        if k not in self.syms:
            self.syms[k] = sp.Symbol(name.replace("!", "_").replace("?", "_"), integer=True) if integer else sp.Symbol(name.replace("!", "_").replace("?", "_"))
        return self.syms[k]

    def fn(self, name):
        if name not in self.funcs:
            self.funcs[name] = sp.Function(name.replace("!", "_").replace("?", "_"))
        return self.funcs[name]

    def conj(self, x):
        return sp.conjugate(x) if self.cplx else x

    def tr(self, t, bound=()):
        key = (t.get_id(), tuple(b.name for b in bound))
        hit = self.cache.get(key)
        if hit is not None:
            return hit[1]
        out = self._tr(t, bound)
        self.cache[key] = (t, out)
        return out

    def cond(self, c, bound):
        k = c.decl().kind()
        ch = c.children()
        if k == z3.Z3_OP_AND:
            return sp.And(*[self.cond(x, bound) for x in ch])
        if k == z3.Z3_OP_OR:
            return sp.Or(*[self.cond(x, bound) for x in ch])
        if k == z3.Z3_OP_NOT:
            return sp.Not(self.cond(ch[0], bound))
        if k == z3.Z3_OP_EQ:
            return sp.Eq(self.tr(ch[0], bound), self.tr(ch[1], bound))
        if k == z3.Z3_OP_LE:
            return sp.Le(self.tr(ch[0], bound), self.tr(ch[1], bound))
        if k == z3.Z3_OP_LT:
            return sp.Lt(self.tr(ch[0], bound), self.tr(ch[1], bound))
        if k == z3.Z3_OP_GE:
            return sp.Ge(self.tr(ch[0], bound), self.tr(ch[1], bound))
        if k == z3.Z3_OP_GT:
            return sp.Gt(self.tr(ch[0], bound), self.tr(ch[1], bound))
        if z3.is_true(c):
            return sp.true
        if z3.is_false(c):
            return sp.false
        raise Unsupported(f"condition {c}")

    def _tr(self, t, bound):
        if z3.is_var(t):
            return bound[len(bound) - 1 - z3.get_var_index(t)]
        if z3.is_int_value(t):
            return sp.Integer(t.as_long())
        if z3.is_rational_value(t):
            return sp.Rational(t.numerator_as_long(), t.denominator_as_long())
        if z3.is_quantifier(t):
            raise Unsupported("a lambda outside a sum atom")
        if not z3.is_app(t):
            raise Unsupported(f"term {t}")
        k = t.decl().kind()
        ch = t.children()
        nm = t.decl().name()
        if k == z3.Z3_OP_ADD:
            return sp.Add(*[self.tr(c, bound) for c in ch])
        if k == z3.Z3_OP_SUB:
            a = self.tr(ch[0], bound)
            for c in ch[1:]:
                a = a - self.tr(c, bound)
            return a
        if k == z3.Z3_OP_UMINUS:
            return -self.tr(ch[0], bound)
        if k == z3.Z3_OP_MUL:
            return sp.Mul(*[self.tr(c, bound) for c in ch])
        if k == z3.Z3_OP_DIV:
            return self.tr(ch[0], bound) / self.tr(ch[1], bound)
        if k == z3.Z3_OP_TO_REAL:
            return self.tr(ch[0], bound)
        if k == z3.Z3_OP_ITE:
            d = self.decide(ch[0]) if self.decide is not None else None
            if d is True:
                return self.tr(ch[1], bound)
            if d is False:
                return self.tr(ch[2], bound)
            return sp.Piecewise((self.tr(ch[1], bound), self.cond(ch[0], bound)), (self.tr(ch[2], bound), True))
        if k == z3.Z3_OP_UNINTERPRETED:
            if t.num_args() == 0:
                return self.sym(nm, t.sort() == z3.IntSort())
            if nm == "rm":
                return self.tr(ch[0], bound) * self.tr(ch[1], bound)
            if nm == "rinv":
                return 1 / self.tr(ch[0], bound)
            if nm == "rsqrt":
                return RS(self.tr(ch[0], bound))
            if nm == "cj_entry":
                return sp.conjugate(self.tr(ch[0], bound))
            if nm == "abs2_entry":
                x = self.tr(ch[0], bound)
                return x * sp.conjugate(x)
            if nm == "sumf":
                lam = ch[2]
                if not z3.is_quantifier(lam):
                    raise Unsupported("sumf over a non-lambda")
                v = sp.Symbol(f"s{len(bound)}", integer=True)      # canonical name per nesting depth: equal sums are structurally equal
                body = self.tr(lam.body(), bound + (v,))
                return sp.Sum(body, (v, self.tr(ch[0], bound), self.tr(ch[1], bound) - 1))
            return self.fn(nm)(*[self.tr(c, bound) for c in ch])
        raise Unsupported(f"operator {t.decl()} in a sum-algebra obligation")


RS = sp.Function("rsqrt", real=True, positive=True)      # the non-negative square root of a non-negative real (norms): real, so conj(rsqrt x) = rsqrt x


def _squares(e):
    """rsqrt(x)^(2k) = x^k"""
    return e.replace(lambda x: isinstance(x, sp.Pow) and getattr(x.base, "func", None) == RS and x.exp.is_integer and x.exp % 2 == 0,
                     lambda x: x.base.args[0] ** (x.exp / 2))


def _height(e):
    hs = [1 + _height(s_.function) for s_ in e.atoms(sp.Sum)]
    return max(hs) if hs else 0


def canon_sums(e):
    """rename the bound variable of every Sum by its nesting height, so that alpha-equivalent sums are structurally equal"""
    if not e.has(sp.Sum):
        return e
    if isinstance(e, sp.Sum) and len(e.limits) == 1:
        f = canon_sums(e.function)
        v, lo, hi = e.limits[0]
        nv = sp.Symbol(f"s{_height(f)}", integer=True)
        return sp.Sum(f.xreplace({v: nv}), (nv, canon_sums(lo), canon_sums(hi)))
    if e.args:
        return e.func(*[canon_sums(a) for a in e.args])
    return e


def normal(e):
    """expand products over sums, split sums, pull constants out, canonical bound names"""
    e = _squares(sp.expand(e))
    e = sp.factor_terms(e)
    e = _squares(sp.expand(e))
    return canon_sums(e)


def rewrite_sums(e, rule):
    """apply `rule(summand, var, lo, hi)` -> replacement or None to every Sum atom (innermost first), after normalisation"""
    e = normal(e)
    changed = True
    guard = 0
    while changed and guard < 20:
        changed = False
        guard += 1
        for s in sorted(e.atoms(sp.Sum), key=lambda x: x.count_ops()):
            if len(s.limits) != 1:
                continue
            v, lo, hi = s.limits[0]
            rep = rule(s.function, v, lo, hi)
            if rep is not None:
                e = normal(e.xreplace({s: rep}))
                changed = True
                break
    return e


def is_zero(e):
    e = normal(e)
    if e == 0:
        return True
    try:
        return sp.simplify(e) == 0
    except Exception:
        return False


def split_piecewise_sums(e):
    """Sum_j P(j) with P = [j == c] ? A(j) : B(j)   =   Sum_j B(j) + (A(c) - B(c))     (c inside the range: a side condition the caller discharges).
    Applied to every Sum whose summand folds to such a two-branch Piecewise on an equality with the summation variable."""
    changed = True
    guard = 0
    while changed and guard < 30:
        changed = False
        guard += 1
        for s_ in sorted(e.atoms(sp.Sum), key=lambda x: x.count_ops()):
            if len(s_.limits) != 1 or not s_.function.has(sp.Piecewise):
                continue
            v, lo, hi = s_.limits[0]
            f = sp.piecewise_fold(s_.function)
            if isinstance(f, sp.Piecewise) and len(f.args) == 2 and f.args[1][1] == sp.true and isinstance(f.args[0][1], sp.Equality):
                a, c = f.args[0]
                b = f.args[1][0]
                if c.lhs == v and not c.rhs.has(v):
                    pt = c.rhs
                elif c.rhs == v and not c.lhs.has(v):
                    pt = c.lhs
                else:
                    continue
                rep = sp.Sum(b, (v, lo, hi)) + a.xreplace({v: pt}) - b.xreplace({v: pt})
                e = e.xreplace({s_: rep})
                changed = True
                break
    return e
