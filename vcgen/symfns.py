"""Symbolic backend module handed out by the patched `get_library_fns` during VC generation.

Every function is a *dependency contract* on the NumPy/SciPy primitive of the same name in cola/backends/np_fns.py:
it returns proxies over the ALG domain and records the facts the primitive is assumed to guarantee.  A name that is
not modelled raises Unsupported (the function under verification is then reported unsupported, never a violation).
"""
from __future__ import annotations

import numpy as np
import optree
import z3

from vcgen import alg
from vcgen.proxy import AMat, CTX, SBool, SInt, SScal, Unsupported, is_cplx, iterm, dim_eq, modelled

__name__ = "vcgen.symfns"

float32, float64, complex64, int32, int64 = np.float32, np.float64, np.complex64, np.int32, np.int64
complex128 = np.complex128
long = np.int64
promote_types = np.promote_types
finfo = np.finfo

USED = set()    # names of dependency contracts exercised (reported in the evidence)


class ndarray:  # placeholder class so that `case xnp.ndarray()` patterns and isinstance checks work
    pass


ndarray = (AMat,)  # isinstance(x, xnp.ndarray)


class PermProxy:
    """integer index array known to be a permutation of range(n)"""
    __array_ufunc__ = None
    device = None

    def __init__(self, term, n, dtype=np.int64):
        self.term, self.n, self.dtype = term, n, np.dtype(dtype)
        self.shape = (n,)
        self.ndim = 1

    @staticmethod
    def fresh(label, n):
        p = PermProxy(z3.Const(CTX.fresh(label), alg.Perm), n)
        CTX.assume(alg.plen(p.term) == iterm(n))
        return p

    def __len__(self):
        c = SInt.lift(self.n).concrete()
        if c is None:
            raise Unsupported("len() of a symbolic permutation")
        return c


def _amat_getitem_perm(self, key):
    if isinstance(key, PermProxy):
        if not bool(dim_eq(key.n, self.shape[0])):
            raise IndexError("permutation length mismatch")
        return AMat(alg.mmul(alg.permm(key.term), self.term), self.shape, self.dtype, fresh=True)
    return _orig_getitem(self, key)


_orig_getitem = AMat.__getitem__
AMat.__getitem__ = _amat_getitem_perm


def _use(name):
    USED.add(name)


def is_array(x):
    return isinstance(x, (AMat, PermProxy, np.ndarray)) or (isinstance(x, SScal) and x.dtype is not None)


def get_device(x):
    return None


def get_default_device():
    return None


def device(name):
    return None


def move_to(arr, device, dtype):
    if dtype is not None:
        return cast(arr, dtype)
    return arr


def jit(fn, static_argnums=None):
    return fn


def array(arr, dtype=None, device=None):
    _use("array")
    if isinstance(arr, (SScal, SInt)):
        s = SScal.lift(arr)
        if dtype is not None and not is_cplx(dtype) and not s.is_real():
            raise modelled(TypeError("can't convert complex to float"))  # what np.array(complex, dtype=float) does
        if dtype is None:
            dtype = s.dtype or (np.complex128 if not s.is_real() else np.float64)
        return SScal(s.re, s.im, dtype=np.dtype(dtype), integral=s.integral)
    if isinstance(arr, AMat):
        return arr if dtype is None else arr.astype(dtype)
    a = np.array(arr, dtype=dtype)   # concrete: real NumPy semantics (raises TypeError for complex -> real)
    if a.ndim == 0:
        s = SScal.lift(a.item())
        return SScal(s.re, s.im, dtype=a.dtype, integral=s.integral)
    raise Unsupported("concrete non-scalar array literal")


def cast(x, dtype):
    _use("cast")
    return x.astype(dtype)


def zeros(shape, dtype, device=None):
    _use("zeros")
    if isinstance(shape, tuple) and len(shape) == 2:
        t = alg.zeros(iterm(shape[0]), iterm(shape[1]))
        return AMat(t, shape, dtype, fresh=True)
    if isinstance(shape, tuple) and len(shape) == 1:
        t = alg.zeros(iterm(shape[0]), z3.IntVal(1))
        return AMat(t, shape, dtype, fresh=True)
    if shape == ():
        return array(0., dtype)
    raise Unsupported(f"zeros{shape}")


def zeros_like(x):
    return zeros(x.shape, x.dtype)


class StackedCopies:
    """np.stack([d] * m, axis): m copies of one vector; only its flattening is given a meaning"""
    def __init__(self, d, m, axis):
        self.d, self.m, self.axis = d, m, axis
        self.shape = (d.shape[0], m) if axis in (-1, 1) else (m, d.shape[0])
        self.dtype = d.dtype

    def reshape(self, *shape):
        if shape not in ((-1,), ((-1,),)):
            raise Unsupported("reshape of stacked copies other than flattening")
        n = self.d.shape[0] * self.m
        if self.axis in (-1, 1):      # row-major flattening of [d d ... d] (columns): every entry repeated m times in place
            t = alg.vkron(self.d.term, alg.ones(z3.IntVal(self.m)))
        else:                         # copies one after the other
            t = alg.vrep(self.d.term, z3.IntVal(self.m))
        return AMat(t, (n,), self.dtype, fresh=True)


def stack(xs, axis=0):
    _use("stack")
    xs = list(xs)
    if xs and all(x is xs[0] for x in xs) and isinstance(xs[0], AMat) and xs[0].ndim == 1:
        return StackedCopies(xs[0], len(xs), axis)
    raise Unsupported("stack of arrays other than copies of one vector")


def ones_like(x):
    _use("ones_like")
    if isinstance(x, AMat) and x.ndim == 1:
        return ones(x.shape, x.dtype)
    raise Unsupported("ones_like of a matrix")


def ones(shape, dtype, device=None):
    _use("ones")
    if isinstance(shape, (int, SInt)):
        shape = (shape,)
    if len(shape) == 1:
        return AMat(alg.ones(iterm(shape[0])), shape, dtype, fresh=True)
    raise Unsupported("ones of a matrix shape")


def eye(n, m=None, dtype=None, device=None):
    _use("eye")
    if m is not None and not bool(dim_eq(n, m)):
        raise Unsupported("rectangular eye")
    t = alg.eye(iterm(n))
    r = AMat(t, (n, n), dtype, fresh=True)
    return r


def conj(x):
    _use("conj")
    return x.conj()


def abs(x):
    _use("abs")
    if isinstance(x, (SScal, SInt)):
        return SScal.lift(x).__abs__()
    if isinstance(x, AMat) and x.ndim == 1:
        dt = np.finfo(x.dtype).dtype if is_cplx(x.dtype) else x.dtype
        return AMat(alg.vabs(x.term), x.shape, dt, fresh=True)
    raise Unsupported("abs of a matrix")


def log(x):
    _use("log")
    if isinstance(x, (SScal, SInt)):
        s = SScal.lift(x)
        if s.is_real():
            return SScal(alg.rlog(s.re), z3.RealVal(0), s.dtype)
        return SScal(alg.fs_re(alg.f_log, s.re, s.im), alg.fs_im(alg.f_log, s.re, s.im), s.dtype)
    if isinstance(x, AMat) and x.ndim == 1:
        return AMat(alg.vlog(x.term), x.shape, x.dtype, fresh=True)
    raise Unsupported("log of a matrix")


def _fn_scalar_or_vec(fn_const, name):
    def g(x):
        _use(name)
        if isinstance(x, (SScal, SInt)):
            s = SScal.lift(x)
            return SScal(alg.fs_re(fn_const, s.re, s.im), alg.fs_im(fn_const, s.re, s.im) if not s.is_real() or name in ("sqrt", "log") else alg.fs_im(fn_const, s.re, s.im), s.dtype)
        if isinstance(x, AMat) and x.ndim == 1:
            return AMat(alg.vap(fn_const, x.term), x.shape, x.dtype, fresh=True)
        raise Unsupported(f"{name} of a matrix")
    g.vc_fn = fn_const
    return g


exp = _fn_scalar_or_vec(alg.f_exp, "exp")
log.vc_fn = alg.f_log
sqrt = _fn_scalar_or_vec(alg.f_pow(z3.RealVal("1/2")), "sqrt")


def sum(x, axis=None, keepdims=False):
    _use("sum")
    if isinstance(x, AMat) and x.ndim == 1 and not keepdims:
        return x.sum(axis)
    raise Unsupported("sum over a matrix axis")


def prod(x):
    _use("prod")
    if isinstance(x, AMat) and x.ndim == 1:
        return SScal(alg.vprod_re(x.term), alg.vprod_im(x.term) if is_cplx(x.dtype) else alg.vprod_im(x.term), x.dtype)
    raise Unsupported("prod of a matrix")


def diag(v, diagonal=0):
    _use("diag")
    if isinstance(v, AMat) and v.ndim == 1:
        k = SInt.lift(diagonal).concrete()
        if k != 0:
            raise Unsupported("off-diagonal embedding")
        return AMat(alg.diagm(v.term), (v.shape[0], v.shape[0]), v.dtype, fresh=True)
    if isinstance(v, AMat) and v.ndim == 2:
        kk = SInt.lift(diagonal)
        if kk.concrete() == 0:
            if not bool(dim_eq(v.shape[0], v.shape[1])):
                raise Unsupported("diag of a rectangular matrix")
            return AMat(alg.dg(v.term), (v.shape[0],), v.dtype, fresh=True)
        absk = abs_int(kk)
        r = AMat(alg.dgk(v.term, kk.term), (SInt.lift(v.shape[0]) - absk,), v.dtype, fresh=True)
        CTX.assume(alg.rows(r.term) == iterm(r.shape[0]))
        return r
    raise Unsupported("diag")


def abs_int(k):
    return SInt(z3.If(k.term >= 0, k.term, -k.term))


def kron(a, b):
    _use("kron")
    return AMat(alg.kron(a.term, b.term), (SInt.lift(a.shape[0]) * b.shape[0], SInt.lift(a.shape[1]) * b.shape[1]),
                np.promote_types(a.dtype, b.dtype), fresh=True)


def block_diag(*ms):
    _use("block_diag")
    t = ms[-1].term
    r, c = SInt.lift(ms[-1].shape[0]), SInt.lift(ms[-1].shape[1])
    dt = ms[-1].dtype
    for mm in reversed(ms[:-1]):
        t = alg.bd(mm.term, t)
        r, c = r + mm.shape[0], c + mm.shape[1]
        dt = np.promote_types(dt, mm.dtype)
    return AMat(t, (r, c), dt, fresh=True)


def concat(xs, axis=0):
    _use("concat")
    xs = list(xs)
    if all(isinstance(x, AMat) and x.ndim == 1 for x in xs):
        t = xs[-1].term
        n = SInt.lift(xs[-1].shape[0])
        for x in reversed(xs[:-1]):
            t = alg.vcat(x.term, t)
            n = n + x.shape[0]
        return AMat(t, (n,), xs[0].dtype, fresh=True)
    if all(isinstance(x, AMat) and x.ndim == 2 for x in xs):
        f = alg.vstack if axis in (0, -2) else alg.hstack
        t = xs[-1].term
        r, c = SInt.lift(xs[-1].shape[0]), SInt.lift(xs[-1].shape[1])
        for x in reversed(xs[:-1]):
            t = f(x.term, t)
            if axis in (0, -2):
                if not bool(dim_eq(x.shape[1], c)):
                    raise ValueError("concatenate: column mismatch")
                r = r + x.shape[0]
            else:
                if not bool(dim_eq(x.shape[0], r)):
                    raise ValueError("concatenate: row mismatch")
                c = c + x.shape[1]
        return AMat(t, (r, c), xs[0].dtype, fresh=True)
    raise Unsupported("concat of mixed operands")


def argsort(x, axis=-1):
    _use("argsort")
    if isinstance(x, PermProxy):
        return PermProxy(alg.pinvp(x.term), x.n, x.dtype)   # argsort of a permutation is its inverse
    raise Unsupported("argsort of values")


# ---- LAPACK-level dependency contracts
def cholesky(A):
    _use("cholesky")
    CTX.require(alg.psd(A.term), "np.linalg.cholesky needs a Hermitian positive (semi)definite matrix")
    L = AMat.const("chol", A.shape, A.dtype)
    CTX.assume(alg.tril(L.term))
    CTX.assume(alg.mmul(L.term, alg.cj(alg.tr(L.term))) == A.term)
    CTX.assume(alg.invok(L.term) == alg.invok(A.term))
    return L


def lu(a):
    _use("lu")
    n = a.shape[0]
    p = PermProxy.fresh("lu_p", n)
    L = AMat.const("lu_L", a.shape, a.dtype)
    U = AMat.const("lu_U", a.shape, a.dtype)
    CTX.assume(alg.tril(L.term))
    CTX.assume(alg.triu(U.term))
    CTX.assume(alg.mmul(alg.permm(p.term), alg.mmul(L.term, U.term)) == a.term)
    CTX.assume(z3.Implies(alg.invok(a.term), z3.And(alg.invok(L.term), alg.invok(U.term))))
    return p, L, U


def solvetri(A, X, lower=True):
    _use("solvetri")
    CTX.require(alg.invok(A.term), "solve_triangular needs a non-singular matrix")
    # scipy reads only the triangle named by `lower`: the result is A^-1 X only if A is triangular on that side
    CTX.require(alg.tril(A.term) if lower else alg.triu(A.term), "solve_triangular(lower=%s) is given a matrix that is triangular on that side" % bool(lower))
    if not bool(dim_eq(A.shape[1], X.shape[0])):
        raise ValueError("solve_triangular: dimension mismatch")
    return AMat(alg.mmul(alg.minv(A.term), X.term), X.shape, np.promote_types(A.dtype, X.dtype), fresh=True)


def solve(A, X):
    _use("solve")
    CTX.require(alg.invok(A.term), "np.linalg.solve needs a non-singular matrix")
    return AMat(alg.mmul(alg.minv(A.term), X.term), X.shape, np.promote_types(A.dtype, X.dtype), fresh=True)


def eigh(A):
    _use("eigh")
    CTX.require(alg.herm(A.term), "np.linalg.eigh needs a Hermitian matrix")
    n = A.shape[0]
    w = AMat.const("eigh_w", (n,), np.finfo(A.dtype).dtype if is_cplx(A.dtype) else A.dtype)
    V = AMat.const("eigh_V", A.shape, A.dtype)
    CTX.assume(alg.unit(V.term))
    CTX.assume(alg.isreal(w.term))
    CTX.assume(A.term == alg.mmul(V.term, alg.mmul(alg.diagm(w.term), alg.cj(alg.tr(V.term)))))
    CTX.assume(z3.Implies(alg.psd(A.term), alg.vpos(w.term)))
    return w, V


def eig(A):
    _use("eig")
    n = A.shape[0]
    w = AMat.const("eig_w", (n,), np.complex128, hyps=False)
    w.assume_dims()
    V = AMat.const("eig_V", A.shape, np.complex128, hyps=False)
    V.assume_dims()
    # precondition of the property (diagonalisable) gives an invertible eigenvector matrix
    CTX.assume(alg.invok(V.term))
    CTX.assume(A.term == alg.mmul(V.term, alg.mmul(alg.diagm(w.term), alg.minv(V.term))))
    return w, V


def lstsq(A, b):
    _use("lstsq")
    return AMat(alg.mmul(alg.pinvm(A.term), b.term), (A.shape[1],) + tuple(b.shape[1:]), np.promote_types(A.dtype, b.dtype), fresh=True)


def linear_transpose(fun, primals, duals):
    """dependency contract (jax.linear_transpose / torch vjp): for a LINEAR map fun(Y) = G Y the result is G^T duals.
    G is obtained by applying the real `fun` to the symbolic identity (linearity of fun is C01's contract of _matmat)."""
    _use("linear_transpose")
    n = primals.shape[0]
    G = fun(AMat(alg.eye(iterm(n)), (n, n), primals.dtype))
    if not bool(dim_eq(G.shape[0], duals.shape[0])):
        raise ValueError("linear_transpose: cotangent shape mismatch")
    return AMat(alg.mmul(alg.tr(G.term), duals.term), (n,) + tuple(duals.shape[1:]), np.promote_types(G.dtype, duals.dtype), fresh=True)


def where(mask, a, b):
    _use("where")
    if isinstance(mask, AMat) and isinstance(a, AMat) and isinstance(b, AMat) and mask.ndim == 1:
        return AMat(alg.vwhere(mask.term, a.term, b.term), a.shape, np.promote_types(a.dtype, b.dtype), fresh=True)
    raise Unsupported("where on non-vector operands")


def max(x, axis=None, keepdims=False):
    _use("max")
    if isinstance(x, AMat) and x.ndim == 1 and not keepdims and axis in (None, 0, -1):
        return SScal(alg.vmax_re(x.term), z3.RealVal(0), x.dtype)
    raise Unsupported("max over a matrix axis")


def min(x, axis=None, keepdims=False):
    _use("min")
    if isinstance(x, AMat) and x.ndim == 1 and not keepdims and axis in (None, 0, -1):
        return SScal(alg.vmin_re(x.term), z3.RealVal(0), x.dtype)
    raise Unsupported("min over a matrix axis")


def iscomplexobj(x):
    _use("iscomplexobj")
    if isinstance(x, (SScal, AMat)):
        dt = x.dtype
        if dt is not None:
            return bool(is_cplx(dt))
        return not x.is_real()
    return bool(np.iscomplexobj(x))


def tree_flatten(value):
    return optree.tree_flatten(value, namespace="cola")


def tree_unflatten(treedef, value):
    return optree.tree_unflatten(treedef, value)


def is_leaf(value):
    return optree.treespec_is_leaf(optree.tree_structure(value, namespace="cola"))


def __getattr__(name):
    if name.startswith("__"):
        raise AttributeError(name)

    def missing(*a, **k):
        raise Unsupported(f"xnp.{name} has no dependency contract")
    # attribute access itself must not fail for names cola only mentions on non-executed paths
    return missing
