"""TAB engine: the live plum dispatch table as a finite relational structure (DESIGN 4.4).

The obligation `forall args in Lattice_f. exists! selected rule` is decided by complete enumeration of the finite
lattice.  Each lattice point is resolved twice: by the relational model of the resolver below (`model_resolve`, a
restatement of plum's candidate filtering over the signatures' own partial order) and by the live
`plum.resolver.Resolver.resolve` on the real objects; a disagreement between the two is a checker error.
No rule body is executed.
"""
from __future__ import annotations

import inspect
import itertools
import time

import numpy as np

from vcgen import kinds as K
from vcgen.core import DISCHARGED, FAILED, Ob
from contracts import tab_spec as S


class _Resolved(Exception):
    def __init__(self, fn, args):
        self.fn, self.args_ = fn, args


def live_table():
    import cola  # noqa
    import cola.linalg  # noqa
    import cola.linalg.svd.svd  # noqa  (namespace package: not reached by cola.linalg's walk; anchor file of C04/C16)
    from plum import dispatch
    fs = dict(dispatch.functions)
    for f in fs.values():
        f._resolve_pending_registrations()
    return fs


def entry_of(F):
    return getattr(F, "_abstract", F)


def bind(F, args):
    """Resolve nothing: run the public entry far enough to see the argument tuple that reaches Function.__call__
    (the abstract wrapper fills defaults; plain functions receive the tuple as given)."""
    from plum.function import Function
    orig = Function.__call__

    def fake(self, *a, **kw):
        raise _Resolved(self, a)

    Function.__call__ = fake
    try:
        try:
            entry_of(F)(*args)
        except _Resolved as r:
            return r.args_
    finally:
        Function.__call__ = orig
    raise RuntimeError("entry point did not reach the dispatcher")


def sig_name(sig):
    def tn(t):
        return getattr(t, "__name__", str(t))
    s = "(" + ", ".join(tn(t) for t in sig.types) + ")"
    if sig.condition is not None:
        s += "[cond]"
    if sig.precedence:
        s += f"[prec={sig.precedence}]"
    return s


def model_resolve(signatures, matches):
    """Relational model of plum.resolver.Resolver.resolve.  `matches[i]` says whether signature i matches.
    Returns ('ok', i) | ('ambiguous', [i...]) | ('notfound', [])."""
    cands = []
    for i, s in enumerate(signatures):
        if not matches[i]:
            continue
        if not any(signatures[c].is_comparable(s) for c in cands):
            cands.append(i)
            continue
        new = [c for c in cands if not (s < signatures[c])]
        if any(s <= signatures[c] for c in cands):
            cands = new + [i]
        else:
            cands = new
    if not cands:
        return "notfound", []
    if len(cands) == 1:
        return "ok", cands[0]
    prec = [signatures[c].precedence + (0.5 if signatures[c].condition is not None else 0.0) for c in cands]
    m = max(prec)
    if sum(p == m for p in prec) == 1:
        return "ok", cands[prec.index(m)]
    return "ambiguous", cands


def live_resolve(F, args):
    from plum.resolver import AmbiguousLookupError, NotFoundLookupError
    try:
        sig = F._resolver.resolve(tuple(args))
        return "ok", sig
    except AmbiguousLookupError as e:
        return "ambiguous", str(e)
    except NotFoundLookupError as e:
        return "notfound", str(e)


class Lattice:
    def __init__(self, seed=0):
        self.rng = np.random.default_rng(seed)
        self.kinds = K.all_operator_kinds()
        self.algs = K.all_algorithms()
        self._ops = {}

    def op_instances(self, with_conds, only_kind=None):
        """[(descriptor, instance)] over kinds x variants x annotation sets (annotation/variant only if some rule of the
        function has a condition: otherwise matching depends on the class alone)."""
        out = []
        for kind in sorted(self.kinds):
            if only_kind is not None and kind != only_kind:
                continue
            variants = K.VARIANTS.get(kind, ["square"]) if with_conds else [K.VARIANTS.get(kind, ["square"])[0]]
            anns = S.ANNOTATION_SETS if with_conds else [()]
            for v in variants:
                for a in anns:
                    key = (kind, v, a)
                    if key not in self._ops:
                        try:
                            op = K.make(kind, self.rng, 3, np.float64, v)
                        except Exception:
                            op = K.bare(self.kinds[kind])
                        try:
                            op = K.annotate(op, a)
                        except Exception:
                            op = K.bare(self.kinds[kind], annotations=[getattr(__import__("cola"), n) for n in a])
                        self._ops[key] = op
                    out.append(({"kind": kind, "variant": v, "annotations": list(a)}, self._ops[key]))
        return out

    def domain(self, dom, with_conds):
        if dom == S.OP:
            return self.op_instances(with_conds)
        if dom == S.ARR:
            return [({"array": "3x3 float64"}, np.eye(3) + 1.0)]
        if dom == S.SCALARS:
            vals = [("int", 2), ("float", 2.5), ("complex", 1 + 2j), ("np.float64", np.float64(2.0)),
                    ("0-d array", np.array(2.0))]
            return [({"scalar": n}, v) for n, v in vals]
        if isinstance(dom, tuple) and dom[0] == "kind":
            return self.op_instances(with_conds, only_kind=dom[1])
        if isinstance(dom, tuple) and dom[0] == "alg":
            out = []
            for name in S.ALGS[dom[1]]:
                if name not in self.algs:
                    raise RuntimeError(f"algorithm class {name} named by tab_spec not found in the live tree")
                out.append(({"alg": name}, self.algs[name]()))
            return out
        if isinstance(dom, tuple) and dom[0] == "lit":
            return [({"lit": repr(v)}, (np.exp if v == "<fn>" else v)) for v in dom[1]]
        raise ValueError(dom)


def n_required(F):
    """number of leading positional parameters without default in the public entry."""
    f = F._f
    sig = inspect.signature(f)
    n = 0
    for p in sig.parameters.values():
        if p.default is inspect.Parameter.empty and p.kind in (p.POSITIONAL_ONLY, p.POSITIONAL_OR_KEYWORD):
            n += 1
    return n


def desc_key(fname, descs):
    parts = []
    for d in descs:
        if "kind" in d:
            parts.append(d["kind"])
        elif "alg" in d:
            parts.append(d["alg"])
        elif "scalar" in d:
            parts.append("scalar:" + d["scalar"])
        elif "array" in d:
            parts.append("array")
        elif "lit" in d:
            parts.append(d["lit"])
        else:
            parts.append("?")
    return f"{fname}({','.join(parts)})"


def enumerate_function(fname, F, lat: Lattice, structural_only=False):
    """Yield (group_key, descs, args_given, verdict dict) for every lattice point of function `fname`."""
    sigs = F._resolver.signatures
    with_conds = any(s.condition is not None for s in sigs)
    req = n_required(F)
    for doms in S.SPEC[fname]:
        spaces = [lat.domain(d, with_conds) for d in doms]
        # trailing optional arguments may be omitted (positional prefix semantics)
        for n_given in range(max(req, 1), len(doms) + 1):
            for combo in itertools.product(*spaces[:n_given]):
                descs = [c[0] for c in combo]
                args = [c[1] for c in combo]
                if n_given < len(doms):
                    descs = descs + [{"lit": S.OMIT}] * (len(doms) - n_given)
                yield descs, args


def decide_point(F, args):
    """-> dict(status, selected, candidates, model_agrees)"""
    sigs = F._resolver.signatures
    try:
        full = bind(F, args)
    except TypeError as e:
        return dict(status="binderror", detail=str(e))
    matches = []
    for s in sigs:
        try:
            matches.append(bool(s.match(tuple(full))))
        except Exception as e:  # a condition that raises on this argument
            return dict(status="conderror", detail=f"{sig_name(s)}: {type(e).__name__}: {e}")
    mstat, mres = model_resolve(sigs, matches)
    lstat, lres = live_resolve(F, full)
    agrees = (mstat == lstat) and (mstat != "ok" or sigs[mres] is lres)
    out = dict(status=lstat, model_agrees=agrees, full_args=full)
    if lstat == "ok":
        out["selected"] = lres
    elif mstat == "ambiguous":
        out["candidates"] = [sig_name(sigs[c]) for c in mres]
    return out


def structural_ok(fname, descs, sel):
    """C19a: the selected rule for a structured kind must be a rule registered for that kind (or a superclass other
    than the LinearOperator base)."""
    from cola.ops.operator_base import LinearOperator
    kinds = [d["kind"] for d in descs if "kind" in d]
    if not kinds or fname not in S.STRUCTURAL or kinds[0] not in S.STRUCTURAL[fname]:
        return None
    want = S.STRUCTURAL_VARIANT.get((fname, kinds[0]))
    if want is not None:
        first = [d for d in descs if "kind" in d][0]
        if first.get("variant") != want:
            return None
    for t in sel.types:
        if inspect.isclass(t) and issubclass(t, LinearOperator):
            return t is not LinearOperator
        origin_args = getattr(t, "__args__", None)
        if origin_args:  # Union[Diagonal, ScalarMul]
            if all(inspect.isclass(a) and issubclass(a, LinearOperator) for a in origin_args):
                return LinearOperator not in origin_args
    return False


def run(chk, functions, mode="C04"):
    """mode C04: totality + unambiguity.  mode C19: structural selection."""
    table = live_table()
    lat = Lattice(chk.seed)
    groups = {}
    n_points = 0
    t_all = time.time()
    for fname in functions:
        if fname not in table:
            raise RuntimeError(f"generic function {fname} not in the live dispatch table")
        F = table[fname]
        chk.under_contract(f"dispatch:{fname}", rules=len(F._resolver.signatures))
        for descs, args in enumerate_function(fname, F, lat):
            kinds_here = [d.get("kind") for d in descs if "kind" in d]
            if mode == "C19" and not (kinds_here and kinds_here[0] in S.STRUCTURAL.get(fname, [])):
                continue
            t0 = time.time()
            res = decide_point(F, args)
            n_points += 1
            gk = f"{mode}/" + desc_key(fname, descs)
            g = groups.setdefault(gk, dict(fn=fname, points=0, bad=[], secs=0.0, model_disagree=[]))
            g["points"] += 1
            g["secs"] += time.time() - t0
            if res["status"] in ("binderror", "conderror"):
                g["bad"].append(dict(descs=descs, why=res["status"], detail=res.get("detail", "")))
                continue
            if not res.get("model_agrees", True):
                g["model_disagree"].append(descs)
            if mode == "C04":
                if res["status"] != "ok":
                    g["bad"].append(dict(descs=descs, why=res["status"], candidates=res.get("candidates")))
            else:
                if res["status"] == "ok":
                    ok = structural_ok(fname, descs, res["selected"])
                    if ok is False:
                        g["bad"].append(dict(descs=descs, why="generic-rule-selected", selected=sig_name(res["selected"])))
                # an ambiguity / not-found is C04's, not C19's
    for gk, g in sorted(groups.items()):
        if g["model_disagree"]:
            raise RuntimeError(f"TAB model disagrees with the live plum resolver at {gk}: {g['model_disagree'][:2]}")
        clause = ("exactly one rule is selected for every annotation set / shape variant / omitted-argument choice"
                  if mode == "C04" else "the rule selected is the structural rule of the kind, not the generic base case")
        ob = Ob(key=gk, fn=f"dispatch:{g['fn']}", clause=clause, engine="TAB", backend="exhaustive-enumeration+live-plum",
                secs=g["secs"])
        if g["bad"]:
            ob.status = FAILED
            b = g["bad"][0]
            ob.detail = f"{len(g['bad'])}/{g['points']} lattice points fail; first: {b['why']} at {b['descs']} " \
                        f"{b.get('candidates') or b.get('selected') or b.get('detail') or ''}"
            ob.witness = dict(engine="TAB", mode=mode, fn=g["fn"], descs=b["descs"], why=b["why"])
        else:
            ob.status = DISCHARGED
            ob.detail = f"{g['points']} lattice points"
        ob.smt = f"forall point in {gk}: exists! rule. match(rule, point) /\\ not dominated  [{g['points']} points enumerated]"
        chk.add(ob)
    chk.extra["lattice_points"] = chk.extra.get("lattice_points", 0) + n_points
    chk.extra["exhaustive"] = True
    chk.extra["kinds"] = sorted(lat.kinds)
    chk.extra["algorithms"] = sorted(lat.algs)
    return n_points


def replay_point(witness):
    """Rebuild the lattice point with the real constructors and ask the real plum resolver (no rule body runs)."""
    table = live_table()
    F = table[witness["fn"]]
    lat = Lattice(0)
    args = []
    for d in witness["descs"]:
        if "kind" in d:
            op = K.make(d["kind"], lat.rng, 3, np.float64, d.get("variant", "square")) \
                if d["kind"] in K.all_operator_kinds() else None
            op = K.annotate(op, d.get("annotations", []))
            args.append(op)
        elif "alg" in d:
            args.append(lat.algs[d["alg"]]())
        elif "scalar" in d:
            args.append(dict(lat.domain(S.SCALARS, False) and [(x[0]["scalar"], x[1]) for x in lat.domain(S.SCALARS, False)])[d["scalar"]])
        elif "array" in d:
            args.append(np.eye(3) + 1.0)
        elif "lit" in d:
            if d["lit"] == S.OMIT:
                continue
            v = eval(d["lit"]) if d["lit"] != "'<fn>'" else np.exp
            args.append(v)
    res = decide_point(F, args)
    mode = witness.get("mode", "C04")
    if mode == "C04":
        bad = res["status"] != "ok"
        msg = f"{res['status']} {res.get('candidates') or res.get('detail') or ''}"
    else:
        bad = res["status"] == "ok" and structural_ok(witness["fn"], witness["descs"], res["selected"]) is False
        msg = f"selected {sig_name(res['selected'])}" if res["status"] == "ok" else res["status"]
    return dict(failing_input_found=bool(bad), replayed=True, observed=msg,
                how="real constructors + real plum Resolver.resolve on the argument tuple", descs=witness["descs"])
