"""Multi-index (tensor) domain for the reshape / moveaxis kernels of Kronecker, KronSum and BlockDiag.

Why a separate domain: the index domain of vcgen/idx.py models an axis by one integer index, so `reshape` with symbolic
dimensions needs div / mod and non-linear arithmetic.  Here a dimension is a *formal* polynomial in dimension atoms with
natural-number coefficients 1 (a sum of ordered products of atoms, `SDim`), an axis of an array is a list of segments, each
segment an ordered tuple of atoms, and an element is addressed by (segment number, one index symbol per atom).  A row-major
reshape is then a *regrouping* of the flattened atom sequence, a `moveaxis` a permutation of axes, a slice at segment
boundaries a selection of segments and `concat` their concatenation: no arithmetic on indices at all.

Soundness.  The atoms stand for arbitrary positive integers.  Every step either follows NumPy's semantics for *all* values
of the atoms (row-major reshape between shapes whose flattened atom sequences agree, basic slicing at offsets that are
prefix sums of segment lengths, concatenation, transposition) or raises `Unsupported` (exit 2, never a verdict).  A formal
dimension *mismatch* (two SDims that differ as polynomials) is a real mismatch for some values of the atoms (distinct
polynomials with natural coefficients differ at some point of N^k), so `==` on SDims may answer False.

Values are polynomials in uninterpreted entry atoms `f[i1, ..., ik]` with finite sums over bound index symbols
(`Poly`): a dict monomial -> rational coefficient, a monomial being (bound symbols with their range atom, sorted factors).
Linearity of finite sums and commutativity of the scalar product are built into this normal form; equality of two values
is equality of normal forms after canonical renaming of bound symbols.  That normaliser is the back end of these
obligations (trusted, ~60 lines below)."""
from __future__ import annotations

import itertools
from fractions import Fraction

import numpy as np

from vcgen.proxy import Unsupported

_counter = [0]


def fresh(prefix):
    _counter[0] += 1
    return f"{prefix}#{_counter[0]}"


# ------------------------------------------------------------------------------------------------ dimensions
class SDim:
    """formal dimension: ordered list of segments, each an ordered tuple of atoms (the empty tuple is 1)"""
    __slots__ = ("segs",)

    def __init__(self, segs):
        self.segs = [tuple(s) for s in segs]

    @staticmethod
    def atom(name):
        return SDim([(name,)])

    @staticmethod
    def lift(x):
        if isinstance(x, SDim):
            return x
        if isinstance(x, (int, np.integer)) and not isinstance(x, bool):
            if x == 0:
                return SDim([])
            if x > 0 and x <= 8:
                return SDim([()] * int(x))
        raise Unsupported(f"tensor domain: dimension arithmetic with {x!r}")

    def canon(self):
        return tuple(sorted(tuple(sorted(s)) for s in self.segs))

    def __mul__(self, o):
        o = SDim.lift(o)
        return SDim([a + b for a in self.segs for b in o.segs])

    def __rmul__(self, o):
        o = SDim.lift(o)
        return SDim([a + b for a in o.segs for b in self.segs])

    def __add__(self, o):
        return SDim(self.segs + SDim.lift(o).segs)

    def __radd__(self, o):
        return SDim(SDim.lift(o).segs + self.segs)

    def __eq__(self, o):
        try:
            return self.canon() == SDim.lift(o).canon()
        except Unsupported:
            return NotImplemented

    def __ne__(self, o):
        r = self.__eq__(o)
        return r if r is NotImplemented else not r

    def __hash__(self):
        return hash(self.canon())

    def __index__(self):
        raise Unsupported("tensor domain: a formal dimension used as a concrete integer")

    __int__ = __index__

    def __lt__(self, o):
        raise Unsupported("tensor domain: order comparison of formal dimensions")

    __le__ = __gt__ = __ge__ = __lt__

    def __floordiv__(self, o):
        raise Unsupported("tensor domain: division of formal dimensions")

    __truediv__ = __mod__ = __sub__ = __rsub__ = __floordiv__

    def __repr__(self):
        return " + ".join("*".join(s) if s else "1" for s in self.segs) or "0"


# ------------------------------------------------------------------------------------------------ values
class Poly:
    """sum of monomials; monomial = (frozenset of (bound symbol, range atom), sorted tuple of factors (name, args))"""
    __slots__ = ("terms",)

    def __init__(self, terms=None):
        self.terms = {k: v for k, v in (terms or {}).items() if v != 0}

    @staticmethod
    def atom(name, args):
        return Poly({(frozenset(), ((name, tuple(args)),)): Fraction(1)})

    @staticmethod
    def const(c):
        return Poly({(frozenset(), ()): Fraction(c)})

    def __add__(self, o):
        out = dict(self.terms)
        for k, v in o.terms.items():
            out[k] = out.get(k, 0) + v
        return Poly(out)

    def scale(self, c):
        c = Fraction(c)
        return Poly({k: v * c for k, v in self.terms.items()})

    def __mul__(self, o):
        out = {}
        for (b1, f1), c1 in self.terms.items():
            for (b2, f2), c2 in o.terms.items():
                if {x for x, _ in b1} & {x for x, _ in b2}:
                    raise Unsupported("tensor domain: bound symbols of two factors clash (capture)")
                k = (b1 | b2, tuple(sorted(f1 + f2)))
                out[k] = out.get(k, 0) + c1 * c2
        return Poly(out)

    def sum_over(self, sym, atom):
        out = {}
        for (b, f), c in self.terms.items():
            if not any(sym in args for _, args in f):
                raise Unsupported("tensor domain: sum of a term that does not depend on the summation index (would need the dimension as a factor)")
            k = (b | {(sym, atom)}, f)
            out[k] = out.get(k, 0) + c
        return Poly(out)

    def canon(self):
        return tuple(sorted(tuple(sorted(s)) for s in self.segs))

    def __mul__(self, o):
        o = SDim.lift(o)
        return SDim([a + b for a in self.segs for b in o.segs])

    def __rmul__(self, o):
        o = SDim.lift(o)
        return SDim([a + b for a in o.segs for b in self.segs])

    def __add__(self, o):
        return SDim(self.segs + SDim.lift(o).segs)

    def __radd__(self, o):
        return SDim(SDim.lift(o).segs + self.segs)

    def __eq__(self, o):
        try:
            return self.canon() == SDim.lift(o).canon()
        except Unsupported:
            return NotImplemented

    def __ne__(self, o):
        r = self.__eq__(o)
        return r if r is NotImplemented else not r

    def __hash__(self):
        return hash(self.canon())

    def __index__(self):
        raise Unsupported("tensor domain: a formal dimension used as a concrete integer")

    __int__ = __index__

    def __lt__(self, o):
        raise Unsupported("tensor domain: order comparison of formal dimensions")

    __le__ = __gt__ = __ge__ = __lt__

    def __floordiv__(self, o):
        raise Unsupported("tensor domain: division of formal dimensions")

    __truediv__ = __mod__ = __sub__ = __rsub__ = __floordiv__

    def __repr__(self):
        return " + ".join("*".join(s) if s else "1" for s in self.segs) or "0"


# ------------------------------------------------------------------------------------------------ values
class Poly:
    """sum of monomials; monomial = (frozenset of (bound symbol, range atom), sorted tuple of factors (name, args))"""
    __slots__ = ("terms",)

    def __init__(self, terms=None):
        self.terms = {k: v for k, v in (terms or {}).items() if v != 0}

    @staticmethod
    def atom(name, args):
        return Poly({(frozenset(), ((name, tuple(args)),)): Fraction(1)})

    @staticmethod
    def const(c):
        return Poly({(frozenset(), ()): Fraction(c)})

    def __add__(self, o):
        out = dict(self.terms)
        for k, v in o.terms.items():
            out[k] = out.get(k, 0) + v
        return Poly(out)

    def scale(self, c):
        c = Fraction(c)
        return Poly({k: v * c for k, v in self.terms.items()})

    def __mul__(self, o):
        out = {}
        for (b1, f1), c1 in self.terms.items():
            for (b2, f2), c2 in o.terms.items():
                if {x for x, _ in b1} & {x for x, _ in b2}:
                    raise Unsupported("tensor domain: bound symbols of two factors clash (capture)")
                k = (b1 | b2, tuple(sorted(f1 + f2)))
                out[k] = out.get(k, 0) + c1 * c2
        return Poly(out)

    def sum_over(self, sym, atom):
        out = {}
        for (b, f), c in self.terms.items():
            if not any(sym in args for _, args in f):
                raise Unsupported("tensor domain: sum of a term that does not depend on the summation index (would need the dimension as a factor)")
            k = (b | {(sym, atom)}, f)
            out[k] = out.get(k, 0) + c
        return Poly(out)

    def conj(self):
        out = {}
        for (b, f), c in self.terms.items():
            k = (b, tuple(sorted((("conj " + n)[5:] if n.startswith("conj conj ") else ("conj " + n if not n.startswith("conj ") else n[5:]), a) for n, a in f)))
            out[k] = out.get(k, 0) + c
        return Poly(out)

    def canon(self):
        """rename bound symbols canonically (minimal factor tuple over the permutations within each range atom)"""
        out = {}
        for (b, f), c in self.terms.items():
            groups = {}
            for s, a in sorted(b):
                groups.setdefault(a, []).append(s)
            best = None
            for perms in itertools.product(*[itertools.permutations(v) for v in groups.values()]):
                ren = {}
                for (a, _), p in zip(groups.items(), perms):
                    for i, s in enumerate(p):
                        ren[s] = f"@{a}.{i}"
                ff = tuple(sorted((n, tuple(ren.get(x, x) for x in args)) for n, args in f))
                if best is None or ff < best:
                    best = ff
            k = (tuple(sorted((a, len(v)) for a, v in groups.items())), best)
            out[k] = out.get(k, 0) + c
        return {k: v for k, v in out.items() if v != 0}

    def __repr__(self):
        def mono(k, c):
            b, f = k
            s = "".join(f"Σ_{x}<{a} " for x, a in sorted(b))
            return f"{c}·{s}" + "·".join(f"{n}[{','.join(map(str, a))}]" for n, a in f)
        return " + ".join(mono(k, c) for k, c in self.terms.items()) or "0"


def poly_equal(p, q):
    return p.canon() == q.canon()


# ------------------------------------------------------------------------------------------------ arrays
class TArr:
    """array over the tensor domain.  axes: list (per axis) of lists of segments (tuples of atoms).
    fn(index) -> Poly, index = list (per axis) of (segment number, tuple of index symbols, one per atom of that segment)"""

    def __init__(self, axes, fn, dtype):
        self.axes = [[tuple(s) for s in ax] for ax in axes]
        self.fn = fn
        self.dtype = np.dtype(dtype)
        self.device = "cpu"

    # -- ndarray protocol (the subset the three kernels use)
    @property
    def shape(self):
        return tuple(SDim(ax) for ax in self.axes)

    @property
    def ndim(self):
        return len(self.axes)

    @property
    def T(self):
        if self.ndim != 2:
            raise Unsupported("tensor domain: .T of a non-matrix")
        return TArr([self.axes[1], self.axes[0]], lambda ix: self.fn([ix[1], ix[0]]), self.dtype)

    def generic_index(self, tag="i"):
        """one generic position per combination of segments: yields (index, description)"""
        for combo in itertools.product(*[range(len(ax)) for ax in self.axes]):
            ix = [(s, tuple(f"{tag}{a}.{s}.{j}:{atom}" for j, atom in enumerate(self.axes[a][s]))) for a, s in enumerate(combo)]
            yield ix, combo

    def swapaxes(self, a, b):
        return swapaxes(self, a, b)

    def transpose(self, *perm):
        if len(perm) == 1 and isinstance(perm[0], (tuple, list)):
            perm = tuple(perm[0])
        if not perm:
            perm = tuple(reversed(range(self.ndim)))
        return TArr([self.axes[p] for p in perm], lambda ix: self.fn([ix[perm.index(a)] for a in range(self.ndim)]), self.dtype)

    def __getattr__(self, name):
        if name.startswith("__"):
            raise AttributeError(name)
        raise Unsupported(f"tensor domain: ndarray.{name} is not modelled")

    def _single(self, what):
        for ax in self.axes:
            if len(ax) != 1:
                raise Unsupported(f"tensor domain: {what} of an array with a concatenated (multi-segment) axis")

    def reshape(self, *dims):
        if len(dims) == 1 and isinstance(dims[0], (tuple, list)):
            dims = tuple(dims[0])
        self._single("reshape")
        flat = [(a, j, atom) for a, ax in enumerate(self.axes) for j, atom in enumerate(ax[0])]
        n = len(dims)
        minus = [i for i, d in enumerate(dims) if isinstance(d, (int, np.integer)) and d == -1]
        if len(minus) > 1:
            raise ValueError("can only specify one unknown dimension")
        groups = [None] * n
        pos = 0

        def want(d):
            d = SDim.lift(d)
            if len(d.segs) != 1:
                raise Unsupported("tensor domain: reshape to a dimension that is a sum")
            return sorted(d.segs[0])
        stop = minus[0] if minus else n
        for i in range(stop):
            w = want(dims[i])
            got = flat[pos:pos + len(w)]
            if sorted(x[2] for x in got) != w:
                raise Unsupported(f"tensor domain: reshape target {dims[i]!r} is not a contiguous run of the source axes {[x[2] for x in flat]} at position {pos} (would need div/mod)")
            groups[i] = got
            pos += len(w)
        end = len(flat)
        for i in range(n - 1, stop, -1):
            w = want(dims[i])
            got = flat[end - len(w):end] if len(w) else []
            if sorted(x[2] for x in got) != w or end - len(w) < pos:
                raise Unsupported(f"tensor domain: reshape target {dims[i]!r} is not a contiguous run of the source axes (from the end)")
            groups[i] = got
            end -= len(w)
        if minus:
            groups[stop] = flat[pos:end]
        elif pos != end:
            raise ValueError(f"cannot reshape array of shape {self.shape} into {dims}")
        src_axes = self.axes

        def fn(ix):
            val = {}
            for g, (seg, syms) in zip(groups, ix):
                for (a, j, _), s in zip(g, syms):
                    val[(a, j)] = s
            old = [(0, tuple(val[(a, j)] for j in range(len(ax[0])))) for a, ax in enumerate(src_axes)]
            return self.fn(old)
        return TArr([[tuple(x[2] for x in g)] for g in groups], fn, self.dtype)

    def __getitem__(self, key):
        if isinstance(key, slice):
            key = (key,)
        if not isinstance(key, tuple) or not all(isinstance(k, slice) for k in key):
            raise Unsupported(f"tensor domain: indexing with {key!r}")
        out = self
        for a, sl in enumerate(key):
            if sl.step not in (None, 1):
                raise Unsupported("tensor domain: strided slice")
            if sl.start is None and sl.stop is None:
                continue
            out = out._slice_axis(a, sl.start, sl.stop)
        return out

    def _slice_axis(self, a, start, stop):
        ax = self.axes[a]

        def prefix_len(d):
            if d is None:
                return None
            want = SDim.lift(d).canon()
            for n in range(len(ax) + 1):
                if SDim(ax[:n]).canon() == want:
                    return n
            raise Unsupported(f"tensor domain: slice offset {d!r} is not a segment boundary of {SDim(ax)!r}")
        lo = prefix_len(start) or 0
        hi = prefix_len(stop)
        hi = len(ax) if hi is None else hi
        if hi < lo:
            raise Unsupported("tensor domain: empty slice")
        axes = list(self.axes)
        axes[a] = ax[lo:hi]

        def fn(ix):
            ix = list(ix)
            ix[a] = (ix[a][0] + lo, ix[a][1])
            return self.fn(ix)
        return TArr(axes, fn, self.dtype)

    def _scalar(self, c, op):
        if isinstance(c, (int, float, Fraction)) and not isinstance(c, bool):
            cc = Fraction(c)
            return TArr(self.axes, lambda ix: self.fn(ix).scale(cc), self.dtype)     # Python scalars are weak (NEP 50): float / complex arrays keep their dtype
        raise Unsupported(f"tensor domain: {op} with {type(c).__name__}")

    def __mul__(self, o):
        if isinstance(o, TArr):
            raise Unsupported("tensor domain: elementwise product of two arrays")
        return self._scalar(o, "*")

    __rmul__ = __mul__

    def __add__(self, o):
        if isinstance(o, (int, float)) and o == 0:
            return self
        if not isinstance(o, TArr):
            raise Unsupported(f"tensor domain: + with {type(o).__name__}")
        if self.axes != o.axes:
            if [SDim(a) for a in self.axes] != [SDim(a) for a in o.axes]:
                raise ValueError(f"operands could not be broadcast together with shapes {self.shape} {o.shape}")
            raise Unsupported("tensor domain: + of arrays whose axes are grouped differently")
        return TArr(self.axes, lambda ix: self.fn(ix) + o.fn(ix), np.promote_types(self.dtype, o.dtype))

    __radd__ = __add__

    def __neg__(self):
        return self._scalar(-1, "neg")

    def __sub__(self, o):
        return self + (-o)

    def __iadd__(self, o):
        raise Unsupported("tensor domain: in-place update (the frame analysis of C18 owns these)")

    __isub__ = __imul__ = __iadd__

    def __bool__(self):
        raise Unsupported("tensor domain: truth value of an array")

    def __len__(self):
        raise Unsupported("tensor domain: len() of an array with a formal leading dimension")


def moveaxis(x, src, dst):
    n = x.ndim
    src, dst = src % n, dst % n
    order = [i for i in range(n) if i != src]
    order.insert(dst, src)
    inv = {old: new for new, old in enumerate(order)}
    return TArr([x.axes[o] for o in order], lambda ix: x.fn([ix[inv[a]] for a in range(n)]), x.dtype)


def swapaxes(x, a, b):
    n = x.ndim
    a, b = a % n, b % n
    order = list(range(n))
    order[a], order[b] = order[b], order[a]
    return TArr([x.axes[o] for o in order], lambda ix: x.fn([ix[order[k]] for k in range(n)]), x.dtype)


def concat(arrs, axis=0):
    arrs = list(arrs)
    if not all(isinstance(a, TArr) for a in arrs) or not arrs:
        raise Unsupported("tensor domain: concat of non-tensor values")
    n = arrs[0].ndim
    axis = axis % n
    for a in arrs[1:]:
        for k in range(n):
            if k != axis and a.axes[k] != arrs[0].axes[k]:
                if SDim(a.axes[k]) != SDim(arrs[0].axes[k]):
                    raise ValueError("all the input array dimensions except for the concatenation axis must match exactly")
                raise Unsupported("tensor domain: concat of arrays whose other axes are grouped differently")
    bounds, segs = [], []
    for a in arrs:
        bounds.append((len(segs), len(segs) + len(a.axes[axis])))
        segs += a.axes[axis]
    axes = list(arrs[0].axes)
    axes[axis] = segs

    def fn(ix):
        s = ix[axis][0]
        for a, (lo, hi) in zip(arrs, bounds):
            if lo <= s < hi:
                jx = list(ix)
                jx[axis] = (s - lo, ix[axis][1])
                return a.fn(jx)
        raise AssertionError("segment out of range")
    dt = arrs[0].dtype
    for a in arrs[1:]:
        dt = np.promote_types(dt, a.dtype)
    return TArr(axes, fn, dt)


class _Backend:
    """the `xnp` the kernels see: only what they use; anything else is Unsupported (exit 2)"""
    moveaxis = staticmethod(moveaxis)
    swapaxes = staticmethod(swapaxes)
    concat = staticmethod(concat)
    promote_types = staticmethod(np.promote_types)
    float32, float64, complex64, complex128 = np.float32, np.float64, np.complex64, np.complex128

    @staticmethod
    def get_default_device():
        return None

    @staticmethod
    def is_array(x):
        return isinstance(x, TArr)

    def __getattr__(self, name):
        def missing(*a, **k):
            raise Unsupported(f"tensor domain: xnp.{name} has no contract here")
        return missing


tfns = _Backend()


def abstract_op(label, ratom, catom, dtype=np.float64):
    """abstract LinearOperator with formal shape (ratom, catom): (A @ X)[r, ...] = sum_c a[r, c] X[c, ...]"""
    from cola.ops.operator_base import LinearOperator

    def matmat(X):
        if not isinstance(X, TArr) or X.ndim != 2:
            raise Unsupported("tensor domain: abstract operator applied to a non-matrix")
        if X.axes[0] != [(catom,)]:
            if X.shape[0] != SDim.atom(catom):
                raise ValueError(f"dimension mismatch: operator {label} has {catom} columns, operand has {X.shape[0]!r} rows")
            raise Unsupported("tensor domain: operand rows grouped differently")

        def fn(ix):
            (_, (r,)), col = ix
            c = fresh("c")
            return (Poly.atom(label, (r, c)) * X.fn([(0, (c,)), col])).sum_over(c, catom)
        return TArr([[(ratom,)], X.axes[1]], fn, np.promote_types(dtype, X.dtype))
    op = LinearOperator(np.dtype(dtype), (SDim.atom(ratom), SDim.atom(catom)), matmat=matmat)
    op._vc_label = label
    return op


def operand(name, row_segs, col_atom="K", dtype=np.float64):
    """a generic 2-D operand: entries x[(segment, row indices...), col]"""
    def fn(ix):
        (s, syms), (_, (k,)) = ix
        return Poly.atom(name, (s,) + tuple(syms) + (k,))
    return TArr([list(row_segs), [(col_atom,)]], fn, dtype)
